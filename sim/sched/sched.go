// Package sched is engine E3 "schedsim": a seeded cooperative scheduler for
// exploring interleavings of small concurrent components of rqlite inside a
// testing/synctest bubble.
//
// Tasks are goroutines created by the harness. A task runs until it parks at a
// yield point (Task.Yield in harness code, verifhook.Yield inside rqlite),
// blocks durably (channel, sync.Cond, timer) or finishes. The scheduler loop
// waits for quiescence (synctest.Wait), computes the enabled set (parked tasks
// whose modelled lock, if any, is free; plus "advance the fake clock by a
// PRNG-chosen quantum"), lets the run's PRNG pick one and resumes it. Nothing
// else makes choices, so one seed is one interleaving.
//
// Goroutines that rqlite itself starts (queue.run, Store.reapLoop, timer
// callbacks such as LockingStreamer.checkIdle) and that reach a yield hook are
// adopted as anonymous tasks: they park like any task and the scheduler decides
// when they continue.
//
// Rules (DESIGN 3.7): a goroutine blocked on a sync.Mutex is not durably
// blocked, so nothing may park while holding a sync.Mutex that another
// goroutine can try to take. The few mutexes held across a blocking point are
// modelled: hook Yield("<lock>.pre") before Lock(), Note("<lock>.acquired")
// after it and Note("<lock>.released") after Unlock(); a task parked at
// "<lock>.pre" is enabled only while the scheduler's view of the lock is free.
package sched

import (
	"fmt"
	"runtime"
	"runtime/debug"
	"strings"
	"sync"
	"testing/synctest"
	"time"

	"github.com/rqlite/rqlite/v10/verifx"
	"verifsim/core"
)

// Task is one schedulable activity.
type Task struct {
	Name  string
	Anon  bool   // adopted goroutine of rqlite (not created by the harness)
	Doing string // set by the harness before a call that may block (diagnostics, oracles)
	Steps int

	s      *Sched
	resume chan struct{}
	parked bool
	point  string
	lock   string // modelled lock the task is about to take ("" = none)
	done   bool
}

// Sched is the scheduler of one run. Create it on the goroutine that runs the
// property (the root of the bubble); that goroutine becomes the scheduler loop.
type Sched struct {
	C   *core.Ctx
	Rng *core.Rand

	// knobs (set before Run; drawn per run by the scenario)
	TickProb float64         // probability of advancing the clock although tasks are enabled
	Sticky   float64         // probability of resuming the same task again if it is still enabled
	Quanta   []time.Duration // candidate clock quanta (default 1ms..)
	MaxSteps int
	// StuckAfter: with no enabled task, the clock is advanced; after this much
	// fake time without any task becoming enabled or finishing the run is stuck.
	StuckAfter time.Duration

	// OnNote receives verifhook.Note events (called on the noting goroutine;
	// keep it short, do not block).
	OnNote func(point string, v int64)
	// AfterStep runs on the scheduler goroutine at quiescence after every step.
	AfterStep func()
	// Adopt decides whether a non-task goroutine reaching point is adopted
	// (nil = adopt all).
	Adopt func(point string) bool
	// Quiet suppresses per-step log lines (the choice sequence is still a
	// function of the seed); used by long runs.
	Quiet bool

	StepN  int
	Ticks  int
	Capped bool
	Stuck  bool
	Start  time.Time

	mu       sync.Mutex
	tasks    []*Task
	byGID    map[uint64]*Task
	locks    map[string]bool
	lockWait map[string]chan struct{} // free mode: goroutines waiting for a modelled lock
	modelled map[string]bool
	free     bool
	mainGID  uint64
	last     *Task
	anonN    map[string]int
	hooked   bool
}

// New creates a scheduler. rng is the schedule PRNG (derive it from the
// scenario's seed).
func New(c *core.Ctx, rng *core.Rand) *Sched {
	return &Sched{
		C: c, Rng: rng,
		TickProb: 0.1, Sticky: 0.0, MaxSteps: 5000, StuckAfter: 10 * time.Minute,
		Quanta:   []time.Duration{time.Millisecond, 3 * time.Millisecond, 10 * time.Millisecond, 50 * time.Millisecond},
		Start:    time.Now(),
		byGID:    map[uint64]*Task{},
		locks:    map[string]bool{},
		lockWait: map[string]chan struct{}{},
		modelled: map[string]bool{},
		anonN:    map[string]int{},
		mainGID:  goid(),
	}
}

// Install routes rqlite's verifhook Yield/Note calls to this scheduler.
func (s *Sched) Install() {
	s.hooked = true
	verifx.InstallHooks(nil, s.hookYield, s.hookNote, nil, nil)
}

// Now is the fake time since the scheduler was created.
func (s *Sched) Now() time.Duration { return time.Since(s.Start) }

// Logf appends to the run's event log (safe to call from tasks).
func (s *Sched) Logf(format string, a ...any) {
	s.mu.Lock()
	s.C.Log.Add(format, a...)
	s.mu.Unlock()
}

// Violate records a violation (safe to call from tasks).
func (s *Sched) Violate(class, format string, a ...any) {
	s.mu.Lock()
	s.C.Violate(class, format, a...)
	s.mu.Unlock()
}

// Probe counts a probe (safe to call from tasks).
func (s *Sched) Probe(name string) {
	s.mu.Lock()
	s.C.Probe(name)
	s.mu.Unlock()
}

// Failed reports whether a violation has been recorded (safe from tasks).
func (s *Sched) Failed() bool {
	s.mu.Lock()
	defer s.mu.Unlock()
	return s.C.Failed()
}

// Go creates a task. It starts parked at point "start": nothing of fn runs
// before the scheduler picks it.
func (s *Sched) Go(name string, fn func(t *Task)) *Task {
	t := &Task{Name: name, s: s, resume: make(chan struct{}), parked: true, point: "start"}
	s.mu.Lock()
	s.tasks = append(s.tasks, t)
	s.mu.Unlock()
	go func() {
		gid := goid()
		s.mu.Lock()
		s.byGID[gid] = t
		s.mu.Unlock()
		defer func() {
			if r := recover(); r != nil {
				s.Violate("panic", "panic in task %s (%s): %v\n%s", t.Name, t.Doing, r, debug.Stack())
			}
			s.mu.Lock()
			t.done = true
			t.parked = false
			delete(s.byGID, gid)
			s.mu.Unlock()
		}()
		<-t.resume
		fn(t)
	}()
	return t
}

// Yield parks the calling task until the scheduler resumes it. Only the task's
// own goroutine may call it.
func (t *Task) Yield(point string) {
	s := t.s
	s.mu.Lock()
	if s.free {
		s.mu.Unlock()
		return
	}
	t.park(point)
	s.mu.Unlock()
	<-t.resume
}

// park must be called with s.mu held.
func (t *Task) park(point string) {
	t.parked = true
	t.point = point
	t.lock = ""
	if l := strings.TrimSuffix(point, ".pre"); l != point && t.s.modelled[l] {
		t.lock = l
	}
}

// ModelLock declares name as a modelled mutex: a goroutine parked at
// "<name>.pre" is enabled only while no "<name>.acquired" note is outstanding.
// Yield points "<x>.pre" of undeclared names are plain yield points (the mutex
// behind them is never held across a park, so no gating is needed).
func (s *Sched) ModelLock(name string) {
	s.mu.Lock()
	s.modelled[name] = true
	s.mu.Unlock()
}

// Done reports whether the task's function returned.
func (t *Task) Done() bool {
	t.s.mu.Lock()
	defer t.s.mu.Unlock()
	return t.done
}

// Blocked reports, at quiescence, whether the task is neither parked at a
// yield point nor finished, i.e. it is blocked inside a call.
func (t *Task) Blocked() bool {
	t.s.mu.Lock()
	defer t.s.mu.Unlock()
	return !t.done && !t.parked
}

// Point is the yield point the task is parked at ("" if not parked).
func (t *Task) Point() string {
	t.s.mu.Lock()
	defer t.s.mu.Unlock()
	if !t.parked {
		return ""
	}
	return t.point
}

func (s *Sched) hookYield(point string) {
	s.mu.Lock()
	if s.free {
		// Scheduling is over, but a goroutine must still not walk into a modelled
		// mutex held by a goroutine that is blocked elsewhere (it would block
		// non-durably and freeze the bubble): wait, durably, for the release.
		if l := strings.TrimSuffix(point, ".pre"); l != point && s.modelled[l] {
			s.passGate(l)
		}
		s.mu.Unlock()
		return
	}
	gid := goid()
	if gid == s.mainGID {
		s.mu.Unlock()
		return
	}
	t := s.byGID[gid]
	if t == nil {
		if s.Adopt != nil && !s.Adopt(point) {
			s.mu.Unlock()
			return
		}
		s.anonN[point]++
		t = &Task{Name: fmt.Sprintf("~%s#%d", point, s.anonN[point]), Anon: true, s: s, resume: make(chan struct{})}
		s.byGID[gid] = t
		s.tasks = append(s.tasks, t)
	}
	t.park(point)
	s.mu.Unlock()
	<-t.resume
}

// passGate waits (s.mu held on entry and exit) until the modelled lock l is
// free and reserves it; the goroutine's acquired/released notes take over.
func (s *Sched) passGate(l string) {
	for s.locks[l] {
		ch := s.lockWait[l]
		if ch == nil {
			ch = make(chan struct{})
			s.lockWait[l] = ch
		}
		s.mu.Unlock()
		<-ch
		s.mu.Lock()
	}
	s.locks[l] = true
}

func (s *Sched) hookNote(point string, v int64) {
	s.mu.Lock()
	if strings.HasSuffix(point, ".acquired") {
		s.locks[strings.TrimSuffix(point, ".acquired")] = true
	} else if strings.HasSuffix(point, ".released") {
		l := strings.TrimSuffix(point, ".released")
		s.locks[l] = false
		if ch := s.lockWait[l]; ch != nil {
			close(ch)
			delete(s.lockWait, l)
		}
	}
	f := s.OnNote
	if s.free {
		f = nil
	}
	s.mu.Unlock()
	if f != nil {
		f(point, v)
	}
}

// enabled returns the tasks that may be resumed now (call at quiescence).
func (s *Sched) enabled() []*Task {
	s.mu.Lock()
	defer s.mu.Unlock()
	var out []*Task
	for _, t := range s.tasks {
		if t.parked && !t.done && (t.lock == "" || !s.locks[t.lock]) {
			out = append(out, t)
		}
	}
	return out
}

// Enabled is the number of tasks that could be resumed now (at quiescence).
func (s *Sched) Enabled() int { return len(s.enabled()) }

// AllDone reports whether every harness task (not the adopted ones) finished.
func (s *Sched) AllDone() bool {
	s.mu.Lock()
	defer s.mu.Unlock()
	for _, t := range s.tasks {
		if !t.Anon && !t.done {
			return false
		}
	}
	return true
}

// Tasks returns the harness tasks in creation order.
func (s *Sched) Tasks() []*Task {
	s.mu.Lock()
	defer s.mu.Unlock()
	var out []*Task
	for _, t := range s.tasks {
		if !t.Anon {
			out = append(out, t)
		}
	}
	return out
}

func (s *Sched) resume(t *Task) {
	s.mu.Lock()
	t.parked = false
	pt := t.point
	t.Steps++
	s.mu.Unlock()
	if !s.Quiet {
		s.C.Log.Add("%d run %s @%s", s.StepN, t.Name, pt)
	}
	t.resume <- struct{}{}
	synctest.Wait()
}

// Tick advances the fake clock by d and lets everything that becomes runnable
// settle.
func (s *Sched) Tick(d time.Duration) {
	s.Ticks++
	time.Sleep(d)
	synctest.Wait()
	if !s.Quiet {
		s.mu.Lock()
		s.C.Log.Add("%d tick %s t=%s", s.StepN, d, s.Now())
		s.mu.Unlock()
	}
}

// Step performs one scheduling step. It returns false when nothing can happen
// any more (cap reached).
func (s *Sched) Step() bool {
	s.StepN++
	if s.StepN > s.MaxSteps {
		s.Capped = true
		return false
	}
	synctest.Wait()
	en := s.enabled()
	r := s.Rng
	switch {
	case len(en) == 0 || r.Bool(s.TickProb):
		s.Tick(s.Quanta[r.Intn(len(s.Quanta))])
	default:
		var pick *Task
		if s.last != nil && s.Sticky > 0 && r.Bool(s.Sticky) {
			for _, t := range en {
				if t == s.last {
					pick = t
				}
			}
		}
		if pick == nil {
			pick = en[r.Intn(len(en))]
		}
		s.last = pick
		s.resume(pick)
	}
	if s.AfterStep != nil {
		s.AfterStep()
	}
	return true
}

// Run steps until every harness task is done, the step cap is reached, a
// violation is recorded, or the run is stuck (no enabled task and no progress
// for StuckAfter of fake time).
func (s *Sched) Run() {
	idleSince := time.Duration(-1)
	for {
		synctest.Wait()
		if s.AllDone() || s.Failed() {
			return
		}
		if s.Enabled() == 0 {
			if idleSince < 0 {
				idleSince = s.Now()
			} else if s.Now()-idleSince > s.StuckAfter {
				s.Stuck = true
				return
			}
		} else {
			idleSince = -1
		}
		if !s.Step() {
			return
		}
	}
}

// RunUntil steps until cond holds at quiescence. It returns false when the
// step cap was reached or a violation was recorded first.
func (s *Sched) RunUntil(cond func() bool) bool {
	for {
		synctest.Wait()
		if cond() {
			return true
		}
		if s.Failed() || !s.Step() {
			return false
		}
	}
}

// Freed reports whether Free has been called (tasks use it to bail out).
func (s *Sched) Freed() bool {
	s.mu.Lock()
	defer s.mu.Unlock()
	return s.free
}

// RunTask resumes one specific parked task (used by scripted phases such as
// tear-down); it is a no-op when the task is not parked.
func (s *Sched) RunTask(t *Task) {
	synctest.Wait()
	s.mu.Lock()
	ok := t.parked && !t.done
	s.mu.Unlock()
	if ok {
		s.StepN++
		s.resume(t)
	}
}

// Free ends scheduling: every parked goroutine is released and later yields
// are no-ops. Call it before tearing the component down.
func (s *Sched) Free() {
	s.mu.Lock()
	s.free = true
	var rel []*Task
	for _, t := range s.tasks {
		if t.parked && !t.done {
			rel = append(rel, t)
		}
	}
	s.mu.Unlock()
	for _, t := range rel {
		s.mu.Lock()
		t.parked = false
		gate := t.lock
		s.mu.Unlock()
		if gate == "" {
			t.resume <- struct{}{}
			continue
		}
		// parked before a modelled mutex: it passes the same gate a free-running
		// goroutine passes (hookYield), waited for on a helper goroutine
		go func(t *Task) {
			s.mu.Lock()
			s.passGate(gate)
			s.mu.Unlock()
			t.resume <- struct{}{}
		}(t)
	}
	synctest.Wait()
}

// Close frees everything and removes the hooks.
func (s *Sched) Close() {
	s.Free()
	if s.hooked {
		verifx.ResetHooks()
	}
}

// ParkedAnonAt counts the adopted goroutines (not harness tasks) parked at a point.
func (s *Sched) ParkedAnonAt(point string) int {
	s.mu.Lock()
	defer s.mu.Unlock()
	n := 0
	for _, t := range s.tasks {
		if t.Anon && t.parked && !t.done && t.point == point {
			n++
		}
	}
	return n
}

// LockHeld reports the scheduler's view of a modelled lock.
func (s *Sched) LockHeld(name string) bool {
	s.mu.Lock()
	defer s.mu.Unlock()
	return s.locks[name]
}

// goid returns the id of the calling goroutine (parsed from its stack header;
// ids are never logged, they only map hook calls to tasks).
func goid() uint64 {
	var buf [40]byte
	n := runtime.Stack(buf[:], false)
	// "goroutine 123 [running]:"
	var id uint64
	for _, ch := range buf[len("goroutine "):n] {
		if ch < '0' || ch > '9' {
			break
		}
		id = id*10 + uint64(ch-'0')
	}
	return id
}
