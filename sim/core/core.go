// Package core holds what every engine shares: the single PRNG that decides a
// run, the event log (with a running hash used for the determinism self-test),
// the result record a worker prints per run, and the property registry.
package core

import (
	"crypto/sha256"
	"encoding/hex"
	"encoding/json"
	"fmt"
	"sort"
	"strings"
)

// ---------------------------------------------------------------- PRNG

// Rand is xoshiro256** seeded through splitmix64. It is the only source of
// choices in a run. It never reads a clock.
type Rand struct {
	s     [4]uint64
	Draws uint64
}

func splitmix(x *uint64) uint64 {
	*x += 0x9e3779b97f4a7c15
	z := *x
	z = (z ^ (z >> 30)) * 0xbf58476d1ce4e5b9
	z = (z ^ (z >> 27)) * 0x94d049bb133111eb
	return z ^ (z >> 31)
}

// Mix derives a sub-seed from a seed and labels (property, run number ...).
func Mix(seed uint64, labels ...uint64) uint64 {
	x := seed
	v := splitmix(&x)
	for _, l := range labels {
		x = v ^ (l * 0x9e3779b97f4a7c15)
		v = splitmix(&x)
	}
	return v
}

func NewRand(seed uint64) *Rand {
	r := &Rand{}
	x := seed
	for i := range r.s {
		r.s[i] = splitmix(&x)
	}
	return r
}

func rotl(x uint64, k uint) uint64 { return (x << k) | (x >> (64 - k)) }

func (r *Rand) Uint64() uint64 {
	r.Draws++
	res := rotl(r.s[1]*5, 7) * 9
	t := r.s[1] << 17
	r.s[2] ^= r.s[0]
	r.s[3] ^= r.s[1]
	r.s[1] ^= r.s[2]
	r.s[0] ^= r.s[3]
	r.s[2] ^= t
	r.s[3] = rotl(r.s[3], 45)
	return res
}

// Intn returns a value in [0,n). n<=0 returns 0.
func (r *Rand) Intn(n int) int {
	if n <= 1 {
		return 0
	}
	return int(r.Uint64() % uint64(n))
}

// Range returns a value in [lo,hi].
func (r *Rand) Range(lo, hi int) int {
	if hi <= lo {
		return lo
	}
	return lo + r.Intn(hi-lo+1)
}

func (r *Rand) Float64() float64 { return float64(r.Uint64()>>11) / (1 << 53) }

// Bool is true with probability p.
func (r *Rand) Bool(p float64) bool { return r.Float64() < p }

// Weighted picks an index with probability proportional to w[i].
func (r *Rand) Weighted(w []int) int {
	t := 0
	for _, x := range w {
		t += x
	}
	if t <= 0 {
		return 0
	}
	v := r.Intn(t)
	for i, x := range w {
		if v < x {
			return i
		}
		v -= x
	}
	return len(w) - 1
}

func (r *Rand) Bytes(n int) []byte {
	b := make([]byte, n)
	for i := 0; i < n; i += 8 {
		v := r.Uint64()
		for j := 0; j < 8 && i+j < n; j++ {
			b[i+j] = byte(v >> (8 * j))
		}
	}
	return b
}

// Fork returns an independent generator derived from this one and a label.
func (r *Rand) Fork(label uint64) *Rand { return NewRand(Mix(r.Uint64(), label)) }

// ---------------------------------------------------------------- event log

// Log is the event log of one run. Lines are hashed as they are appended; only
// the last Keep lines are retained for reporting.
type Log struct {
	h      [32]byte
	N      int
	Keep   int
	lines  []string
	Full   bool // keep everything (replay / failure reporting)
	frozen bool
}

// Freeze stops hashing: lines added afterwards (tear-down of the simulated
// nodes, which happens after the oracle has decided) are recorded but are not
// part of the run's identity.
func (l *Log) Freeze() { l.frozen = true }

func NewLog() *Log { return &Log{Keep: 400} }

func (l *Log) Add(format string, a ...any) {
	s := fmt.Sprintf(format, a...)
	l.N++
	if !l.frozen {
		hh := sha256.New()
		hh.Write(l.h[:])
		hh.Write([]byte(s))
		copy(l.h[:], hh.Sum(nil))
	}
	l.lines = append(l.lines, s)
	if !l.Full && len(l.lines) > 2*l.Keep {
		l.lines = append([]string(nil), l.lines[len(l.lines)-l.Keep:]...)
	}
}

// AddUnhashed records a line that does not take part in the hash (trace output).
func (l *Log) AddUnhashed(format string, a ...any) {
	l.lines = append(l.lines, fmt.Sprintf(format, a...))
}

func (l *Log) Hash() string { return hex.EncodeToString(l.h[:8]) }

func (l *Log) Tail(n int) []string {
	if n > len(l.lines) {
		n = len(l.lines)
	}
	return append([]string(nil), l.lines[len(l.lines)-n:]...)
}

func (l *Log) Lines() []string { return l.lines }

// ---------------------------------------------------------------- results

// Verdicts.
const (
	OK        = "ok"
	Violation = "violation"
	Discarded = "discarded" // run could not be judged (documented reasons only)
	Capped    = "capped"    // hit a step/time cap before the oracle could decide
)

// Result is what a worker prints (one JSON line) per run.
type Result struct {
	Property  string          `json:"property"`
	Seed      uint64          `json:"seed"`
	Verdict   string          `json:"verdict"`
	Class     string          `json:"class,omitempty"`  // violation class (stable identifier used for shrinking/known findings)
	Detail    string          `json:"detail,omitempty"` // human readable
	Steps     int             `json:"steps"`
	SimMs     int64           `json:"sim_ms"`
	Faults    map[string]int  `json:"faults,omitempty"`
	Probes    map[string]int  `json:"probes,omitempty"`
	LogHash   string          `json:"log_hash"`
	LogTail   []string        `json:"log_tail,omitempty"`
	Scenario  json.RawMessage `json:"scenario,omitempty"`
	Trivial   bool            `json:"trivial,omitempty"` // run exercised nothing relevant to the property
	Cases     int             `json:"cases,omitempty"`   // sub-cases evaluated inside this run (fault enumeration)
	StateSigs []string        `json:"state_sigs,omitempty"`
	WallMs    int64           `json:"wall_ms"`
}

// Ctx is handed to a property's Run function.
type Ctx struct {
	Seed   uint64
	Rng    *Rand // schedule/fault PRNG of the run (derived from the scenario's seed)
	Log    *Log
	Res    *Result
	Dir    string // scratch directory on tmpfs, removed after the run
	Tier   string
	Replay bool
}

func (c *Ctx) Fault(kind string) {
	if c.Res.Faults == nil {
		c.Res.Faults = map[string]int{}
	}
	c.Res.Faults[kind]++
}

func (c *Ctx) Probe(name string) {
	if c.Res.Probes == nil {
		c.Res.Probes = map[string]int{}
	}
	c.Res.Probes[name]++
}

func (c *Ctx) ProbeN(name string, n int) {
	if n == 0 {
		return
	}
	if c.Res.Probes == nil {
		c.Res.Probes = map[string]int{}
	}
	c.Res.Probes[name] += n
}

// Violate records the first violation of the run.
func (c *Ctx) Violate(class, format string, a ...any) {
	if c.Res.Verdict == Violation {
		return
	}
	c.Res.Verdict = Violation
	c.Res.Class = class
	c.Res.Detail = fmt.Sprintf(format, a...)
	c.Log.Add("VIOLATION %s: %s", class, c.Res.Detail)
}

func (c *Ctx) Failed() bool { return c.Res.Verdict == Violation }

// Discard marks the run as not judgeable, for one of the documented reasons.
func (c *Ctx) Discard(reason string) {
	if c.Res.Verdict == Violation {
		return
	}
	c.Res.Verdict = Discarded
	c.Res.Class = reason
}

// Sig records a state signature; the orchestrator counts distinct ones.
func (c *Ctx) Sig(s string) {
	if len(c.Res.StateSigs) < 64 {
		c.Res.StateSigs = append(c.Res.StateSigs, s)
	}
}

// ---------------------------------------------------------------- registry

// Prop is one property's simulation: Gen turns a seed into a JSON scenario
// (config + operation/fault list, everything the run depends on); Run executes
// a scenario. Replay and shrinking only ever call Run.
type Prop struct {
	ID     string
	Bubble bool // run inside a testing/synctest bubble (fake clock)
	Gen    func(r *Rand, tier string) any
	Run    func(c *Ctx, scenario json.RawMessage)
	// Enumerate, when set, lists scenarios to run completely (fault
	// enumeration) in addition to / instead of seeded generation.
	Enumerate func(tier string) []any
}

var registry = map[string]*Prop{}

func Register(p *Prop)       { registry[p.ID] = p }
func Lookup(id string) *Prop { return registry[id] }
func IDs() []string {
	var ids []string
	for k := range registry {
		ids = append(ids, k)
	}
	sort.Strings(ids)
	return ids
}

// PropNum turns "C07" into 7 for seed derivation.
func PropNum(id string) uint64 {
	var n uint64
	for _, ch := range strings.TrimLeft(id, "C") {
		if ch >= '0' && ch <= '9' {
			n = n*10 + uint64(ch-'0')
		}
	}
	return n
}

// MustJSON marshals or panics (harness bug).
func MustJSON(v any) json.RawMessage {
	b, err := json.Marshal(v)
	if err != nil {
		panic(err)
	}
	return b
}
