// Package simnet is the in-memory network the simulator owns. Nothing here
// draws random numbers or reads a clock for decisions: Write only queues a
// segment; the driver decides which queued segment is delivered next.
//
// All blocking is on sync.Cond (durably blocking inside a synctest bubble).
package simnet

import (
	"crypto/sha1"
	"encoding/binary"
	"errors"
	"fmt"
	"io"
	"net"
	"os"
	"sort"
	"sync"
	"time"
)

var (
	ErrRefused = errors.New("simnet: connection refused")
	ErrReset   = errors.New("simnet: connection reset by peer")
	ErrClosed  = net.ErrClosed
	ErrPipe    = errors.New("simnet: broken pipe")
)

type timeoutError struct{ s string }

func (e timeoutError) Error() string   { return e.s }
func (e timeoutError) Timeout() bool   { return true }
func (e timeoutError) Temporary() bool { return true }
func (e timeoutError) Is(target error) bool {
	return target == os.ErrDeadlineExceeded
}

type Addr string

func (a Addr) Network() string { return "tcp" }
func (a Addr) String() string  { return string(a) }

func hostOf(addr string) string {
	h, _, err := net.SplitHostPort(addr)
	if err != nil {
		return addr
	}
	return h
}

type segment struct {
	data []byte
	fin  bool
}

// Net is one simulated network.
type Net struct {
	mu        sync.Mutex
	listeners map[string]*Listener
	conns     map[uint64]*Conn // endpoints with possibly pending output
	nextID    uint64
	blocked   map[[2]string]bool // [srcHost,dstHost] -> segments held, dials hang
	down      map[string]bool    // hosts that refuse everything
	dialWait  *sync.Cond
	ordinals  map[[2]string]uint64

	// Trace, if set, records low-level events (debugging the harness itself).
	Trace func(format string, a ...any)

	// Tap, if set, sees every delivered chunk (called with mu held; must not block).
	Tap func(from, to *Conn, data []byte)

	Stats struct {
		Dials, Refused, DialTimeouts, Delivered, DeliveredBytes, Resets, Dropped uint64
	}
}

func New() *Net {
	n := &Net{
		listeners: map[string]*Listener{},
		conns:     map[uint64]*Conn{},
		blocked:   map[[2]string]bool{},
		down:      map[string]bool{},
		ordinals:  map[[2]string]uint64{},
	}
	n.dialWait = sync.NewCond(&n.mu)
	return n
}

// ---------------------------------------------------------------- listener

type Listener struct {
	n      *Net
	addr   string
	q      []*Conn
	cond   *sync.Cond
	closed bool
}

func (n *Net) Listen(addr string) (*Listener, error) {
	n.mu.Lock()
	defer n.mu.Unlock()
	if _, ok := n.listeners[addr]; ok {
		return nil, fmt.Errorf("simnet: address %s in use", addr)
	}
	l := &Listener{n: n, addr: addr}
	l.cond = sync.NewCond(&n.mu)
	n.listeners[addr] = l
	return l, nil
}

func (l *Listener) Accept() (net.Conn, error) {
	l.n.mu.Lock()
	defer l.n.mu.Unlock()
	for len(l.q) == 0 && !l.closed {
		l.cond.Wait()
	}
	if l.closed {
		return nil, ErrClosed
	}
	c := l.q[0]
	l.q = l.q[1:]
	return c, nil
}

func (l *Listener) Close() error {
	l.n.mu.Lock()
	defer l.n.mu.Unlock()
	if l.closed {
		return nil
	}
	l.closed = true
	if l.n.listeners[l.addr] == l {
		delete(l.n.listeners, l.addr)
	}
	for _, c := range l.q {
		c.resetLocked()
	}
	l.q = nil
	l.cond.Broadcast()
	return nil
}

func (l *Listener) Addr() net.Addr { return Addr(l.addr) }

// ---------------------------------------------------------------- conn

// Conn is one endpoint of a connection.
type Conn struct {
	n          *Net
	id         uint64
	ordinal    uint64 // creation ordinal within (srcHost,dstHost)
	local      string
	remote     string
	dialer     bool
	peer       *Conn
	out        []segment // written by this endpoint, not yet delivered to peer
	rbuf       []byte
	rcond      *sync.Cond
	closed     bool // closed locally
	reset      bool
	peerClosed bool // FIN from peer delivered
	wclosed    bool // write side shut down (CloseWrite): FIN queued, reads still possible
	rdl, wdl   time.Time
	rtimer     *time.Timer
	Tag        string // free label for the harness (e.g. "hostile")
	sent, rcvd uint64
	window     int // >0: Write blocks while this many bytes are queued undelivered (see cut.go SetWindowLocked)
}

func (c *Conn) ID() uint64           { return c.id }
func (c *Conn) LocalHost() string    { return hostOf(c.local) }
func (c *Conn) RemoteHost() string   { return hostOf(c.remote) }
func (c *Conn) IsDialer() bool       { return c.dialer }
func (c *Conn) LocalAddr() net.Addr  { return Addr(c.local) }
func (c *Conn) RemoteAddr() net.Addr { return Addr(c.remote) }

// Dial connects from srcHost to addr. A blocked link makes the dial hang until
// the timeout (fake time) or until the link heals.
func (n *Net) Dial(srcHost, addr string, timeout time.Duration) (net.Conn, error) {
	n.mu.Lock()
	defer n.mu.Unlock()
	n.Stats.Dials++
	dstHost := hostOf(addr)
	var deadline time.Time
	if timeout > 0 {
		deadline = time.Now().Add(timeout)
	}
	var tm *time.Timer
	for n.blocked[[2]string{srcHost, dstHost}] || n.blocked[[2]string{dstHost, srcHost}] {
		if n.down[srcHost] {
			return nil, ErrClosed
		}
		if timeout <= 0 {
			// no timeout: wait for heal
		} else if !time.Now().Before(deadline) {
			n.Stats.DialTimeouts++
			if tm != nil {
				tm.Stop()
			}
			return nil, timeoutError{"simnet: dial " + addr + ": i/o timeout"}
		} else if tm == nil {
			tm = time.AfterFunc(time.Until(deadline), func() {
				n.mu.Lock()
				n.dialWait.Broadcast()
				n.mu.Unlock()
			})
		}
		n.dialWait.Wait()
	}
	if tm != nil {
		tm.Stop()
	}
	l := n.listeners[addr]
	if l == nil || l.closed || n.down[dstHost] || n.down[srcHost] {
		n.Stats.Refused++
		return nil, &net.OpError{Op: "dial", Net: "tcp", Addr: Addr(addr), Err: ErrRefused}
	}
	key := [2]string{srcHost, dstHost}
	n.ordinals[key]++
	ord := n.ordinals[key]
	n.nextID++
	a := &Conn{n: n, id: n.nextID, ordinal: ord, local: fmt.Sprintf("%s:%d", srcHost, 50000+ord), remote: addr, dialer: true}
	n.nextID++
	b := &Conn{n: n, id: n.nextID, ordinal: ord, local: addr, remote: a.local}
	a.peer, b.peer = b, a
	a.rcond = sync.NewCond(&n.mu)
	b.rcond = sync.NewCond(&n.mu)
	n.conns[a.id] = a
	n.conns[b.id] = b
	l.q = append(l.q, b)
	l.cond.Broadcast()
	if n.Trace != nil {
		n.Trace("dial %s>%s ord=%d t=%d", srcHost, addr, ord, time.Now().UnixNano())
	}
	return a, nil
}

func (c *Conn) Write(p []byte) (int, error) {
	c.n.mu.Lock()
	defer c.n.mu.Unlock()
	if c.closed {
		return 0, ErrClosed
	}
	if c.reset {
		return 0, ErrReset
	}
	if c.peerClosed || c.wclosed {
		return 0, ErrPipe
	}
	if len(p) == 0 {
		return 0, nil
	}
	// optional send window (back-pressure of a slow path): only for endpoints a
	// harness selected; everything else never blocks in Write
	for c.window > 0 && c.queuedLocked() >= c.window {
		c.rcond.Wait()
		if c.closed {
			return 0, ErrClosed
		}
		if c.reset {
			return 0, ErrReset
		}
		if c.peerClosed || c.wclosed {
			return 0, ErrPipe
		}
	}
	c.out = append(c.out, segment{data: append([]byte(nil), p...)})
	c.sent += uint64(len(p))
	if c.n.Trace != nil {
		sum := sha1.Sum(p)
		c.n.Trace("write %s>%s ord=%d dialer=%v n=%d %x t=%d", c.LocalHost(), c.RemoteHost(), c.ordinal, c.dialer, len(p), sum[:4], time.Now().UnixNano())
	}
	return len(p), nil
}

func (c *Conn) Read(p []byte) (int, error) {
	c.n.mu.Lock()
	defer c.n.mu.Unlock()
	for {
		if c.closed {
			return 0, ErrClosed
		}
		if len(c.rbuf) > 0 {
			k := copy(p, c.rbuf)
			c.rbuf = c.rbuf[k:]
			return k, nil
		}
		if c.reset {
			return 0, ErrReset
		}
		if c.peerClosed {
			return 0, io.EOF
		}
		if !c.rdl.IsZero() && !time.Now().Before(c.rdl) {
			return 0, timeoutError{"simnet: read " + c.local + ": i/o timeout"}
		}
		if len(p) == 0 {
			return 0, nil
		}
		c.rcond.Wait()
	}
}

func (c *Conn) Close() error {
	c.n.mu.Lock()
	defer c.n.mu.Unlock()
	if c.closed {
		return nil
	}
	c.closed = true
	if c.rtimer != nil {
		c.rtimer.Stop()
	}
	if !c.reset && !c.wclosed {
		c.out = append(c.out, segment{fin: true})
	}
	c.rbuf = nil
	c.rcond.Broadcast()
	return nil
}

// CloseWrite shuts down the write side only (TCP shutdown(SHUT_WR)): the peer
// reads EOF after the data already written, this endpoint can still read what
// the peer sends until the peer closes. Used by hostile-peer tasks that must
// observe every byte the node sends back.
func (c *Conn) CloseWrite() error {
	c.n.mu.Lock()
	defer c.n.mu.Unlock()
	if c.closed {
		return ErrClosed
	}
	if c.reset {
		return ErrReset
	}
	if c.wclosed {
		return nil
	}
	c.wclosed = true
	c.out = append(c.out, segment{fin: true})
	return nil
}

// Rcvd reports the bytes delivered to this endpoint (Sent is in cut.go).
func (c *Conn) Rcvd() uint64 { c.n.mu.Lock(); defer c.n.mu.Unlock(); return c.rcvd }

func (c *Conn) SetDeadline(t time.Time) error {
	c.SetReadDeadline(t)
	return c.SetWriteDeadline(t)
}

func (c *Conn) SetReadDeadline(t time.Time) error {
	c.n.mu.Lock()
	defer c.n.mu.Unlock()
	if c.closed {
		return ErrClosed
	}
	c.rdl = t
	if c.rtimer != nil {
		c.rtimer.Stop()
		c.rtimer = nil
	}
	if !t.IsZero() {
		d := time.Until(t)
		if d <= 0 {
			c.rcond.Broadcast()
		} else {
			c.rtimer = time.AfterFunc(d, func() {
				c.n.mu.Lock()
				c.rcond.Broadcast()
				c.n.mu.Unlock()
			})
		}
	}
	return nil
}

func (c *Conn) SetWriteDeadline(t time.Time) error { return nil } // writes never block

func (c *Conn) resetLocked() {
	for _, e := range []*Conn{c, c.peer} {
		if e == nil {
			continue
		}
		e.reset = true
		e.out = nil
		e.rcond.Broadcast()
		if e.closed {
			delete(c.n.conns, e.id)
		}
	}
}

// ---------------------------------------------------------------- driver API

// Pending describes a deliverable head segment.
type Pending struct {
	C    *Conn
	Key  string
	Size int
	Fin  bool
}

func (c *Conn) heldLocked() bool {
	return c.n.blocked[[2]string{c.LocalHost(), c.RemoteHost()}]
}

// PendingHeads returns the head segment of every connection endpoint that has
// undelivered output on a link that is not blocked, in canonical order: the
// order is a function of the set of pending messages, not of the order in
// which goroutines happened to write them.
func (n *Net) PendingHeads() []Pending {
	n.mu.Lock()
	defer n.mu.Unlock()
	var ps []Pending
	for id, c := range n.conns {
		if len(c.out) == 0 {
			if c.closed && (c.peer == nil || c.peer.closed || c.reset) {
				delete(n.conns, id)
			}
			continue
		}
		if c.heldLocked() {
			continue
		}
		h := c.out[0]
		dir := "d"
		if !c.dialer {
			dir = "a"
		}
		// (src, dst, direction, creation ordinal) identifies the endpoint; payload
		// bytes are deliberately not part of the key (they may contain values the
		// simulator does not control, e.g. SQLite's random WAL salts).
		var ob [8]byte
		binary.BigEndian.PutUint64(ob[:], c.ordinal)
		key := fmt.Sprintf("%s>%s/%s/%x/%d", c.LocalHost(), c.RemoteHost(), dir, ob[4:], btoi(h.fin))
		ps = append(ps, Pending{C: c, Key: key, Size: len(h.data), Fin: h.fin})
	}
	sort.Slice(ps, func(i, j int) bool { return ps[i].Key < ps[j].Key })
	return ps
}

func btoi(b bool) int {
	if b {
		return 1
	}
	return 0
}

// HeldCount returns the number of segments queued on blocked links.
func (n *Net) HeldCount() int {
	n.mu.Lock()
	defer n.mu.Unlock()
	k := 0
	for _, c := range n.conns {
		if len(c.out) > 0 && c.heldLocked() {
			k += len(c.out)
		}
	}
	return k
}

// Deliver moves (a prefix of) the head segment of c to its peer. max<=0 means
// the whole segment. Returns the bytes delivered.
func (n *Net) Deliver(c *Conn, max int) []byte {
	n.mu.Lock()
	defer n.mu.Unlock()
	if len(c.out) == 0 {
		return nil
	}
	h := c.out[0]
	p := c.peer
	if h.fin {
		c.out = c.out[1:]
		p.peerClosed = true
		p.rcond.Broadcast()
		if c.closed && p.closed {
			delete(n.conns, c.id)
			delete(n.conns, p.id)
		}
		return nil
	}
	data := h.data
	if max > 0 && max < len(data) {
		data = h.data[:max]
		c.out[0].data = h.data[max:]
	} else {
		c.out = c.out[1:]
	}
	n.Stats.Delivered++
	n.Stats.DeliveredBytes += uint64(len(data))
	if c.window > 0 {
		c.rcond.Broadcast() // a writer may be waiting for room in its send window
	}
	if p.closed || p.reset {
		n.Stats.Dropped++
		return data
	}
	if n.Tap != nil {
		n.Tap(c, p, data)
	}
	p.rbuf = append(p.rbuf, data...)
	p.rcvd += uint64(len(data))
	p.rcond.Broadcast()
	return data
}

// MutateHead lets a fault rewrite the head segment in place before delivery.
func (n *Net) MutateHead(c *Conn, f func([]byte) []byte) {
	n.mu.Lock()
	defer n.mu.Unlock()
	if len(c.out) == 0 || c.out[0].fin {
		return
	}
	c.out[0].data = f(c.out[0].data)
	if len(c.out[0].data) == 0 {
		c.out = c.out[1:]
	}
}

// Reset kills a connection: both ends see a reset, in-flight data is lost.
func (n *Net) Reset(c *Conn) {
	n.mu.Lock()
	defer n.mu.Unlock()
	n.Stats.Resets++
	c.resetLocked()
}

// Block holds all traffic from host a to host b (one way).
func (n *Net) Block(a, b string) {
	n.mu.Lock()
	defer n.mu.Unlock()
	n.blocked[[2]string{a, b}] = true
}

// Partition blocks both directions between the two groups.
func (n *Net) Partition(g1, g2 []string) {
	n.mu.Lock()
	defer n.mu.Unlock()
	for _, a := range g1 {
		for _, b := range g2 {
			n.blocked[[2]string{a, b}] = true
			n.blocked[[2]string{b, a}] = true
		}
	}
}

// Heal removes all blocks.
func (n *Net) Heal() {
	n.mu.Lock()
	defer n.mu.Unlock()
	n.blocked = map[[2]string]bool{}
	n.dialWait.Broadcast()
}

func (n *Net) Blocked(a, b string) bool {
	n.mu.Lock()
	defer n.mu.Unlock()
	return n.blocked[[2]string{a, b}]
}

// Connected reports whether a and b can exchange messages in both directions.
func (n *Net) Connected(a, b string) bool {
	n.mu.Lock()
	defer n.mu.Unlock()
	return !n.blocked[[2]string{a, b}] && !n.blocked[[2]string{b, a}] && !n.down[a] && !n.down[b]
}

// HostDown resets every connection of the host, removes its listeners and
// refuses dials to it until HostUp.
func (n *Net) HostDown(h string) {
	n.mu.Lock()
	defer n.mu.Unlock()
	n.down[h] = true
	for _, c := range n.conns {
		if c.LocalHost() == h || c.RemoteHost() == h {
			c.resetLocked()
		}
	}
	for a, l := range n.listeners {
		if hostOf(a) == h {
			l.closed = true
			for _, c := range l.q {
				c.resetLocked()
			}
			l.q = nil
			l.cond.Broadcast()
			delete(n.listeners, a)
		}
	}
	n.dialWait.Broadcast()
}

func (n *Net) HostUp(h string) {
	n.mu.Lock()
	defer n.mu.Unlock()
	delete(n.down, h)
}

// ConnsBetween lists live dialer-side endpoints from a to b (canonical order).
func (n *Net) ConnsOf(host string) []*Conn {
	n.mu.Lock()
	defer n.mu.Unlock()
	var cs []*Conn
	for _, c := range n.conns {
		if c.dialer && !c.closed && !c.reset && (c.LocalHost() == host || c.RemoteHost() == host) {
			cs = append(cs, c)
		}
	}
	sort.Slice(cs, func(i, j int) bool {
		if cs[i].local != cs[j].local {
			return cs[i].local < cs[j].local
		}
		return cs[i].remote < cs[j].remote
	})
	return cs
}

// ---------------------------------------------------------------- host view

// Host is a node's view of the network: it dials from its own address.
type Host struct {
	N    *Net
	Name string // "10.0.0.1"
}

func (n *Net) Host(name string) *Host { return &Host{N: n, Name: name} }

func (h *Host) Dial(addr string, timeout time.Duration) (net.Conn, error) {
	return h.N.Dial(h.Name, addr, timeout)
}

func (h *Host) Listen(port int) (*Listener, error) {
	return h.N.Listen(fmt.Sprintf("%s:%d", h.Name, port))
}
