package simnet

// Stream-cut fault (C21): end one direction of a connection at an exact byte
// position, either gracefully (the reader sees the bytes and then a clean
// end-of-stream, which is what the peer of a process that was killed
// mid-stream sees: the kernel flushes the send buffer and sends FIN) or with
// a reset (the reader sees the bytes and then an error). Additive: nothing
// in simnet.go depends on this file.

// Sent returns the total number of bytes this endpoint has written so far
// (delivered or still queued). Read at a quiescent point.
func (c *Conn) Sent() uint64 {
	c.n.mu.Lock()
	defer c.n.mu.Unlock()
	return c.sent
}

// Queued returns the number of bytes written by this endpoint that have not
// been delivered to the peer yet.
func (c *Conn) Queued() int {
	c.n.mu.Lock()
	defer c.n.mu.Unlock()
	return c.queuedLocked()
}

func (c *Conn) queuedLocked() int {
	q := 0
	for _, s := range c.out {
		q += len(s.data)
	}
	return q
}

// Peer returns the other endpoint of the connection.
func (c *Conn) Peer() *Conn { return c.peer }

// CutAt makes `limit` the total number of bytes the peer of c will ever
// receive from c (counted from the start of the connection). It must be
// called at a quiescent point when c.Sent() > limit, i.e. when at least one
// written byte lies beyond the limit. Undelivered bytes up to the limit are
// delivered immediately, everything after them is discarded. fin=true: the
// peer then reads a clean end-of-stream (io.EOF); fin=false: the peer then
// reads a connection reset. In both cases the cut endpoint itself is dead:
// its further reads and writes fail with a reset error.
// It returns false (and does nothing) if the limit has not been exceeded yet
// or has already been passed by delivered bytes.
func (n *Net) CutAt(c *Conn, limit uint64, fin bool) bool {
	n.mu.Lock()
	defer n.mu.Unlock()
	if c.reset || c.closed || c.peer == nil {
		return false
	}
	queued := uint64(c.queuedLocked())
	delivered := c.sent - queued
	if c.sent <= limit || delivered > limit {
		return false
	}
	keep := int(limit - delivered)
	p := c.peer
	var data []byte
	for _, s := range c.out {
		if s.fin || keep == 0 {
			break
		}
		d := s.data
		if len(d) > keep {
			d = d[:keep]
		}
		data = append(data, d...)
		keep -= len(d)
	}
	c.out = nil
	if len(data) > 0 && !p.closed && !p.reset {
		n.Stats.Delivered++
		n.Stats.DeliveredBytes += uint64(len(data))
		if n.Tap != nil {
			n.Tap(c, p, data)
		}
		p.rbuf = append(p.rbuf, data...)
		p.rcvd += uint64(len(data))
	}
	n.Stats.Resets++
	// the cut endpoint is dead for its owner
	c.reset = true
	c.rcond.Broadcast()
	if fin {
		p.peerClosed = true
	} else {
		p.reset = true
		p.out = nil
	}
	p.rcond.Broadcast()
	return true
}

// SentLocked is Sent for use inside a Net.Tap callback (which already runs
// with the network lock held).
func (c *Conn) SentLocked() uint64 { return c.sent }

// SetWindowLocked gives this endpoint a send window: once `bytes` bytes are
// queued undelivered its Write blocks until the driver has delivered some (what
// a sender sees on a slow path). For use inside a Net.Tap callback (network
// lock held); 0 removes the window. Default: no window, Write never blocks.
func (c *Conn) SetWindowLocked(bytes int) {
	c.window = bytes
	c.rcond.Broadcast()
}
