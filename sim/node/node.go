// Package node composes one rqlite node the way cmd/rqlited/main.go does
// (mux -> raft layer + cluster service, cluster client, proxy, store), over
// the simulated network. Everything rqlite-side is the real code from /repo.
package node

import (
	"bytes"
	"context"
	"fmt"
	"io"
	"log"
	"net"
	"net/http/httptest"
	"os"
	"path/filepath"
	"time"

	"github.com/rqlite/rqlite/v10/auth"
	"github.com/rqlite/rqlite/v10/cluster"
	httpd "github.com/rqlite/rqlite/v10/http"
	"github.com/rqlite/rqlite/v10/proxy"
	"github.com/rqlite/rqlite/v10/store"
	"github.com/rqlite/rqlite/v10/tcp"
	"verifsim/simnet"
)

const (
	RaftPort = 4002
	HTTPPort = 4001
)

// Knobs are the tuning parameters a run may randomise (all are existing
// exported fields of store.Store).
type Knobs struct {
	SnapshotThreshold        uint64        `json:"snap_threshold,omitempty"`
	SnapshotThresholdWALSize uint64        `json:"snap_wal_size,omitempty"`
	SnapshotInterval         time.Duration `json:"snap_interval,omitempty"`
	SnapshotReapThreshold    int           `json:"reap_threshold,omitempty"`
	HeartbeatTimeout         time.Duration `json:"heartbeat,omitempty"`
	ElectionTimeout          time.Duration `json:"election,omitempty"`
	LeaderLeaseTimeout       time.Duration `json:"lease,omitempty"`
	ApplyTimeout             time.Duration `json:"apply_timeout,omitempty"`
	CompressSnapTransport    bool          `json:"compress_snap,omitempty"`
	NoSnapshotOnClose        bool          `json:"no_snap_on_close,omitempty"`
	ReapTimeout              time.Duration `json:"reap_timeout,omitempty"`
	ReapReadOnlyTimeout      time.Duration `json:"reap_ro_timeout,omitempty"`
	BootstrapExpect          int           `json:"bootstrap_expect,omitempty"`
	ReqCompressBatch         int           `json:"req_compress_batch,omitempty"`
	ReqCompressSize          int           `json:"req_compress_size,omitempty"`
	FKConstraints            bool          `json:"fk,omitempty"`
	MaxReadOnlyConns         int           `json:"max_ro_conns,omitempty"` // cap of the read-only connection pool (0 = unlimited)
}

// Node is one simulated rqlite node.
type Node struct {
	Idx      int
	ID       string
	HostName string
	RaftAddr string
	HTTPAddr string
	Dir      string
	Knobs    Knobs
	Creds    *auth.CredentialsStore

	Net   *simnet.Net
	Host  *simnet.Host
	MuxLn *simnet.Listener
	Mux   *tcp.Mux
	Store *store.Store
	Svc   *cluster.Service
	Cli   *cluster.Client
	Proxy *proxy.Proxy
	HTTP  *httpd.Service // only when WithHTTP is set

	WithHTTP     bool
	QueueCap     int
	QueueBatchSz int
	QueueTimeout time.Duration
	QueueTx      bool

	Up        bool
	Starts    int
	Extra     func(n *Node) error // optional hook run after the store is constructed, before Open
	AfterOpen func(n *Node) error
	OnStop    func(n *Node)
	httpLn    *simnet.Listener
}

// HTTPDo sends one request to the node's real HTTP service by calling its
// ServeHTTP directly (no socket) and returns the recorded response. It blocks
// like a real request would, so call it from a task.
func (n *Node) HTTPDo(method, target, contentType string, body []byte, user, pass string) *httptest.ResponseRecorder {
	var rd io.Reader
	if body != nil {
		rd = bytes.NewReader(body)
	}
	req := httptest.NewRequest(method, "http://"+n.HTTPAddr+target, rd)
	if contentType != "" {
		req.Header.Set("Content-Type", contentType)
	}
	if user != "" || pass != "" {
		req.SetBasicAuth(user, pass)
	}
	w := httptest.NewRecorder()
	n.HTTP.ServeHTTP(w, req)
	return w
}

// raftLayer is the 20-line stand-in for tcp.Layer/tcp.Dialer: it dials over
// simnet and writes the mux header byte, exactly what tcp.Dialer does.
type raftLayer struct {
	ln     net.Listener
	host   *simnet.Host
	header byte
}

func (l *raftLayer) Accept() (net.Conn, error) { return l.ln.Accept() }
func (l *raftLayer) Close() error              { return l.ln.Close() }
func (l *raftLayer) Addr() net.Addr            { return l.ln.Addr() }
func (l *raftLayer) Dial(addr string, timeout time.Duration) (net.Conn, error) {
	return dialHeader(l.host, l.header, addr, timeout)
}

func dialHeader(h *simnet.Host, header byte, addr string, timeout time.Duration) (net.Conn, error) {
	c, err := h.Dial(addr, timeout)
	if err != nil {
		return nil, err
	}
	if _, err := c.Write([]byte{header}); err != nil {
		c.Close()
		return nil, err
	}
	return c, nil
}

// HeaderDialer implements cluster.Dialer over simnet.
type HeaderDialer struct {
	Host   *simnet.Host
	Header byte
}

func (d *HeaderDialer) Dial(addr string, timeout time.Duration) (net.Conn, error) {
	return dialHeader(d.Host, d.Header, addr, timeout)
}

func New(nw *simnet.Net, idx int, baseDir string, k Knobs) *Node {
	host := fmt.Sprintf("10.0.0.%d", idx)
	return &Node{
		Idx:      idx,
		ID:       fmt.Sprintf("n%d", idx),
		HostName: host,
		RaftAddr: fmt.Sprintf("%s:%d", host, RaftPort),
		HTTPAddr: fmt.Sprintf("%s:%d", host, HTTPPort),
		Dir:      filepath.Join(baseDir, fmt.Sprintf("n%d", idx)),
		Knobs:    k,
		Net:      nw,
	}
}

var discard = log.New(io.Discard, "", 0)

// Start brings the node up on its directory (fresh or pre-existing).
func (n *Node) Start() error {
	if n.Up {
		return fmt.Errorf("node %s already up", n.ID)
	}
	n.Net.HostUp(n.HostName)
	n.Host = n.Net.Host(n.HostName)
	ln, err := n.Host.Listen(RaftPort)
	if err != nil {
		return err
	}
	n.MuxLn = ln
	mux, err := tcp.NewMux(ln, nil)
	if err != nil {
		return err
	}
	mux.Logger = discard
	n.Mux = mux
	go mux.Serve()

	raftLn := mux.Listen(cluster.MuxRaftHeader)
	ly := &raftLayer{ln: raftLn, host: n.Host, header: cluster.MuxRaftHeader}

	dbConf := store.NewDBConfig()
	dbConf.FKConstraints = n.Knobs.FKConstraints
	str := store.New(&store.Config{DBConf: dbConf, Dir: n.Dir, ID: n.ID, Logger: discard}, ly)
	k := n.Knobs
	str.RaftLogLevel = "ERROR"
	str.SnapshotThreshold = k.SnapshotThreshold
	str.SnapshotThresholdWALSize = k.SnapshotThresholdWALSize
	str.SnapshotInterval = k.SnapshotInterval
	str.SnapshotReapThreshold = k.SnapshotReapThreshold
	str.HeartbeatTimeout = k.HeartbeatTimeout
	str.ElectionTimeout = k.ElectionTimeout
	str.LeaderLeaseTimeout = k.LeaderLeaseTimeout
	if k.ApplyTimeout != 0 {
		str.ApplyTimeout = k.ApplyTimeout
	}
	str.CompressSnapTransport = k.CompressSnapTransport
	str.NoSnapshotOnClose = k.NoSnapshotOnClose
	str.ReapTimeout = k.ReapTimeout
	str.ReapReadOnlyTimeout = k.ReapReadOnlyTimeout
	str.BootstrapExpect = k.BootstrapExpect
	str.NoVerifyDB = true
	if k.MaxReadOnlyConns > 0 {
		str.MaxReadOnlyConns = k.MaxReadOnlyConns
	}
	if k.ReqCompressBatch != 0 || k.ReqCompressSize != 0 {
		str.SetRequestCompression(k.ReqCompressBatch, k.ReqCompressSize)
	}
	n.Store = str

	var cs cluster.CredentialStore
	if n.Creds != nil {
		cs = n.Creds
	}
	svc := cluster.New(mux.Listen(cluster.MuxClusterHeader), str, str, cs)
	svc.SetAPIAddr(n.HTTPAddr)
	svc.SetVersion("sim")
	if err := svc.Open(); err != nil {
		return err
	}
	n.Svc = svc

	cli := cluster.NewClient(&HeaderDialer{Host: n.Host, Header: cluster.MuxClusterHeader}, 30*time.Second)
	cli.SetLocal(n.RaftAddr, svc)
	cli.SetLocalVersion("sim")
	n.Cli = cli

	n.Proxy = proxy.New(str, cli)
	n.Proxy.SetAPIAddr(n.HTTPAddr)

	if n.WithHTTP {
		var hcs httpd.CredentialStore
		if n.Creds != nil {
			hcs = n.Creds
		}
		hs := httpd.New(n.HTTPAddr, str, cli, n.Proxy, hcs)
		if n.QueueCap != 0 {
			hs.DefaultQueueCap = n.QueueCap
		}
		if n.QueueBatchSz != 0 {
			hs.DefaultQueueBatchSz = n.QueueBatchSz
		}
		if n.QueueTimeout != 0 {
			hs.DefaultQueueTimeout = n.QueueTimeout
		}
		hs.DefaultQueueTx = n.QueueTx
		hln, err := n.Host.Listen(HTTPPort)
		if err != nil {
			return err
		}
		n.httpLn = hln
		if err := hs.StartVerif(hln); err != nil {
			return err
		}
		n.HTTP = hs
	}

	if n.Extra != nil {
		if err := n.Extra(n); err != nil {
			return err
		}
	}
	if err := str.Open(); err != nil {
		n.teardownNet()
		return fmt.Errorf("open %s: %w", n.ID, err)
	}
	if n.AfterOpen != nil {
		if err := n.AfterOpen(n); err != nil {
			return err
		}
	}
	n.Up = true
	n.Starts++
	return nil
}

func (n *Node) teardownNet() {
	if n.HTTP != nil {
		n.HTTP.Close()
		n.HTTP = nil
	}
	if n.httpLn != nil {
		n.httpLn.Close()
	}
	if n.Svc != nil {
		n.Svc.Close()
	}
	if n.MuxLn != nil {
		n.MuxLn.Close()
	}
	if n.Mux != nil {
		n.Mux.Close()
	}
}

// Stop shuts the node down in the order main.go uses: cluster service, mux
// listener, mux connections, store.
func (n *Node) Stop() error {
	if !n.Up {
		return nil
	}
	n.Up = false
	if n.OnStop != nil {
		n.OnStop(n)
	}
	n.teardownNet()
	err := n.Store.Close(true)
	n.Net.HostDown(n.HostName)
	return err
}

// Kill models a process crash at a quiescent point: the directory image is
// taken first (that is the state that survives), the network drops the node,
// then the old instance is shut down off to the side and its directory is
// replaced by the image at the same path.
func (n *Node) Kill() (finish func() error, err error) {
	if !n.Up {
		return func() error { return nil }, nil
	}
	n.Up = false
	img := n.Dir + ".img"
	os.RemoveAll(img)
	if err := CopyTree(n.Dir, img); err != nil {
		return nil, err
	}
	n.Net.HostDown(n.HostName)
	st := n.Store
	st.NoSnapshotOnClose = true
	if n.OnStop != nil {
		n.OnStop(n)
	}
	svc, mux, muxLn, hs, hln := n.Svc, n.Mux, n.MuxLn, n.HTTP, n.httpLn
	n.HTTP = nil
	return func() error {
		if hs != nil {
			hs.Close()
		}
		if hln != nil {
			hln.Close()
		}
		svc.Close()
		muxLn.Close()
		mux.Close()
		st.Close(true) // best effort; whatever it writes is discarded
		if err := os.RemoveAll(n.Dir); err != nil {
			return err
		}
		return os.Rename(img, n.Dir)
	}, nil
}

// CopyTree copies a directory recursively, preserving modification times to
// the nanosecond (the clean-snapshot fingerprint compares mtime and size).
func CopyTree(src, dst string) error {
	return filepath.Walk(src, func(p string, fi os.FileInfo, err error) error {
		if err != nil {
			if os.IsNotExist(err) {
				return nil
			}
			return err
		}
		rel, _ := filepath.Rel(src, p)
		t := filepath.Join(dst, rel)
		switch {
		case fi.IsDir():
			if err := os.MkdirAll(t, 0o755); err != nil {
				return err
			}
		case fi.Mode()&os.ModeSymlink != 0:
			l, err := os.Readlink(p)
			if err != nil {
				return err
			}
			return os.Symlink(l, t)
		case fi.Mode().IsRegular():
			b, err := os.ReadFile(p)
			if err != nil {
				if os.IsNotExist(err) {
					return nil
				}
				return err
			}
			if err := os.WriteFile(t, b, fi.Mode().Perm()); err != nil {
				return err
			}
			if err := os.Chtimes(t, fi.ModTime(), fi.ModTime()); err != nil {
				return err
			}
		}
		return nil
	})
}

// WaitLeader is a convenience for set-up code running in its own goroutine.
func (n *Node) WaitLeader(ctx context.Context, d time.Duration) (string, error) {
	return n.Store.WaitForLeader(d)
}
