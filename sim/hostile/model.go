// Package hostile is the hostile-peer engine used by C18 and C35: a task on the
// simulated network that dials a node's inter-node (mux) port from a host that
// is not part of the cluster and speaks - or deliberately mis-speaks - the
// cluster protocol, plus the reference model of the permission rules and the
// wire-level observers (tap recorder, per-connection heap accounting).
package hostile

import (
	"encoding/json"
	"fmt"
	"strings"

	"github.com/rqlite/rqlite/v10/auth"
)

// Cred is one entry of a credential store (same JSON shape as rqlite's file).
type Cred struct {
	Username string   `json:"username,omitempty"`
	Password string   `json:"password,omitempty"`
	Perms    []string `json:"perms,omitempty"`
}

// Creds is a whole credential store. A nil/empty Creds means "no credential
// store configured".
type Creds []Cred

// AllPerms lists every permission name rqlite knows (auth package constants),
// spelled out here on purpose: the model must not import the names it checks.
var AllPerms = []string{"all", "join", "join-read-only", "join-read-replica", "remove", "execute", "query",
	"status", "ready", "backup", "load", "snapshot", "leader-ops", "ui"}

func (cs Creds) find(user string) *Cred {
	for i := range cs {
		if cs[i].Username == user {
			return &cs[i]
		}
	}
	return nil
}

func (c *Cred) has(perm string) bool {
	if c == nil {
		return false
	}
	for _, p := range c.Perms {
		if p == perm {
			return true
		}
	}
	return false
}

// Allowed is the reference model of one permission decision, written from the
// documented rules: a permission (or "all") granted to "*" needs no
// credentials; otherwise a user name must be supplied, the password must
// match, and the user (or "*") must hold the permission or "all".
func (cs Creds) Allowed(user, pass, perm string) bool {
	if len(cs) == 0 {
		return true // no credential store configured
	}
	star := cs.find("*")
	if star.has(perm) || star.has("all") {
		return true
	}
	if user == "" {
		return false
	}
	u := cs.find(user)
	if u == nil || u.Password != pass {
		return false
	}
	return u.has(perm) || u.has("all")
}

// Need describes what an endpoint or inter-node command requires: every
// permission in All, and (if Any is non-empty) at least one of Any. Never means
// the request must not perform anything whoever asks (unsupported command).
type Need struct {
	All   []string
	Any   []string
	Never bool
}

func (cs Creds) Authorized(user, pass string, n Need) bool {
	if n.Never {
		return false
	}
	for _, p := range n.All {
		if !cs.Allowed(user, pass, p) {
			return false
		}
	}
	if len(n.Any) == 0 {
		return true
	}
	for _, p := range n.Any {
		if cs.Allowed(user, pass, p) {
			return true
		}
	}
	return false
}

// Present turns a presentation name into the credentials put on the wire for
// user u of the store.
//
//	none      no credentials at all
//	wrong     right user name, wrong password
//	right     right user name and password
//	unknown   a user the store does not know (with u's real password)
//	nouser    empty user name with u's real password
//	emptypw   right user name, empty password
func (cs Creds) Present(u int, pres string) (user, pass string, present bool) {
	var c Cred
	if len(cs) > 0 {
		c = cs[((u%len(cs))+len(cs))%len(cs)]
	} else {
		c = Cred{Username: "nobody", Password: "nothing"}
	}
	switch pres {
	case "none", "":
		return "", "", false
	case "wrong":
		return c.Username, c.Password + "x", true
	case "right":
		return c.Username, c.Password, true
	case "unknown":
		return "mallory", c.Password, true
	case "nouser":
		return "", c.Password, true
	case "emptypw":
		return c.Username, "", true
	}
	return "", "", false
}

var Presentations = []string{"none", "wrong", "right", "unknown", "nouser", "emptypw"}

// Store builds the real credential store from the same entries, through the
// real loader.
func (cs Creds) Store() (*auth.CredentialsStore, error) {
	if len(cs) == 0 {
		return nil, nil
	}
	b, err := json.Marshal([]Cred(cs))
	if err != nil {
		return nil, err
	}
	st := auth.NewCredentialsStore()
	if err := st.Load(strings.NewReader(string(b))); err != nil {
		return nil, fmt.Errorf("load credentials: %w", err)
	}
	return st, nil
}

// Root returns the first user holding "all" (the harness's own identity for
// set-up and follow-up requests), or nil.
func (cs Creds) Root() *Cred {
	for i := range cs {
		if cs[i].Username != "*" && cs[i].has("all") {
			return &cs[i]
		}
	}
	return nil
}

// PeerNeed is the permission table of the inter-node commands.
func PeerNeed(kind string, voter bool) Need {
	switch kind {
	case "meta", "hwm":
		return Need{} // no permission defined for these
	case "execute":
		return Need{All: []string{"execute"}}
	case "query":
		return Need{All: []string{"query"}}
	case "request":
		return Need{All: []string{"query", "execute"}}
	case "backup", "backup_stream":
		return Need{All: []string{"backup"}}
	case "load":
		return Need{All: []string{"load"}}
	case "load_chunk":
		return Need{Never: true}
	case "remove":
		return Need{All: []string{"remove"}}
	case "notify":
		return Need{All: []string{"join"}}
	case "join":
		if voter {
			return Need{All: []string{"join"}}
		}
		return Need{Any: []string{"join-read-only", "join-read-replica"}}
	case "stepdown":
		return Need{All: []string{"leader-ops"}}
	}
	return Need{Never: true}
}

var PeerKinds = []string{"meta", "execute", "query", "request", "backup", "backup_stream", "load", "load_chunk",
	"remove", "notify", "join", "stepdown", "hwm"}
