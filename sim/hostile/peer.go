package hostile

import (
	"errors"
	"fmt"
	"io"
	"runtime/metrics"
	"testing/synctest"
	"time"

	"verifsim/sim"
	"verifsim/simnet"
)

// Host is the address the hostile peer dials from: not a cluster member.
const Host = "10.0.0.99"

const tag = "hostile"

// Rec is everything observed about one hostile connection.
type Rec struct {
	ID        uint64
	Written   uint64 // bytes the peer wrote
	Delivered uint64 // bytes the network delivered to the node
	Resp      []byte // every byte the node sent back that was delivered (wire tap)
	Alloc     uint64 // Go heap bytes allocated during the scheduler steps that delivered this connection's bytes to the node
	DialErr   string
	WriteErr  string
	EOF       bool   // the node closed the connection (FIN seen by the peer)
	ReadErr   string // reset / timeout instead of EOF
}

// Driver wraps the E1 scheduler: every step is bracketed by two reads of the
// cumulative heap-allocation counter, and the difference is charged to the
// hostile connection whose bytes that step delivered to a node (a step
// delivers exactly one segment, then the system runs to quiescence, so what
// is allocated in between is what handling that segment allocated).
type Driver struct {
	S      *sim.Sim
	recs   map[uint64]*Rec
	mark   *Rec
	sample []metrics.Sample
}

func NewDriver(s *sim.Sim) *Driver {
	d := &Driver{S: s, recs: map[uint64]*Rec{}, sample: []metrics.Sample{{Name: "/gc/heap/allocs:bytes"}}}
	s.Net.Tap = func(from, to *simnet.Conn, data []byte) {
		if from.Tag == tag {
			if r := d.recs[from.ID()]; r != nil {
				r.Delivered += uint64(len(data))
				d.mark = r
			}
		}
		if to.Tag == tag {
			if r := d.recs[to.ID()]; r != nil {
				r.Resp = append(r.Resp, data...)
			}
		}
	}
	return d
}

func (d *Driver) allocs() uint64 {
	metrics.Read(d.sample)
	if d.sample[0].Value.Kind() == metrics.KindUint64 {
		return d.sample[0].Value.Uint64()
	}
	return 0
}

// Step is one scheduler step with heap accounting.
func (d *Driver) Step() {
	d.mark = nil
	a0 := d.allocs()
	d.S.Step()
	synctest.Wait()
	if d.mark != nil {
		d.mark.Alloc += d.allocs() - a0
		d.mark = nil
	}
}

func (d *Driver) Await(t *sim.Task, maxSim time.Duration) bool {
	deadline := time.Now().Add(maxSim)
	for !t.Finished && !d.S.Capped && time.Now().Before(deadline) {
		d.Step()
	}
	if !t.Finished {
		// let the scheduler's own bookkeeping observe a completion at the deadline
		d.S.Await(t, 0)
	}
	return t.Finished
}

func (d *Driver) RunFor(dur time.Duration) {
	deadline := time.Now().Add(dur)
	for !d.S.Capped && time.Now().Before(deadline) {
		d.Step()
	}
}

func (d *Driver) RunUntil(cond func() bool, maxSim time.Duration) bool {
	deadline := time.Now().Add(maxSim)
	for !d.S.Capped && time.Now().Before(deadline) {
		synctest.Wait()
		if cond() {
			return true
		}
		d.Step()
	}
	synctest.Wait()
	return cond()
}

// Stream is what a hostile peer does on one connection.
type Stream struct {
	Chunks [][]byte // written in order (the first one normally starts with the mux header byte)
	GapMs  []int    // simulated sleep before chunk i
	// End: "fin" half-close after the last chunk and read until the node closes;
	// "stall" keep the connection open and silent until the node closes it;
	// "rst" reset the connection after EndGapMs; "close" close at once.
	End      string
	EndGapMs int
	WaitMs   int // how long (simulated) to wait for the node to close
}

// Conn is a hostile connection in progress.
type Conn struct {
	Rec   *Rec
	task  *sim.Task
	total time.Duration
}

// Start launches the stream against addr as a task and returns at once. label
// must be a deterministic function of the scenario.
func (d *Driver) Start(label, addr string, st Stream) *Conn {
	rec := &Rec{}
	wait := time.Duration(st.WaitMs) * time.Millisecond
	if wait <= 0 {
		wait = 120 * time.Second
	}
	total := wait + time.Duration(st.EndGapMs)*time.Millisecond + 10*time.Second
	for _, g := range st.GapMs {
		total += time.Duration(g) * time.Millisecond
	}
	t := d.S.Go(label, func() {
		nc, err := d.S.Net.Dial(Host, addr, 5*time.Second)
		if err != nil {
			rec.DialErr = err.Error()
			return
		}
		c := nc.(*simnet.Conn)
		c.Tag = tag
		rec.ID = c.ID()
		d.recs[rec.ID] = rec
		defer c.Close()
		for i, ch := range st.Chunks {
			if i < len(st.GapMs) && st.GapMs[i] > 0 {
				time.Sleep(time.Duration(st.GapMs[i]) * time.Millisecond)
			}
			if len(ch) == 0 {
				continue
			}
			n, err := c.Write(ch)
			rec.Written += uint64(n)
			if err != nil {
				rec.WriteErr = err.Error()
				break
			}
		}
		switch st.End {
		case "close":
			return
		case "rst":
			time.Sleep(time.Duration(st.EndGapMs) * time.Millisecond)
			d.S.Net.Reset(c)
			return
		case "stall":
		default:
			c.CloseWrite()
		}
		c.SetReadDeadline(time.Now().Add(wait))
		buf := make([]byte, 4096)
		for {
			_, err := c.Read(buf)
			if err == nil {
				continue
			}
			if errors.Is(err, io.EOF) {
				rec.EOF = true
			} else {
				rec.ReadErr = err.Error()
			}
			return
		}
	})
	return &Conn{Rec: rec, task: t, total: total}
}

// Finish steps the simulation until the connection's task is done.
func (d *Driver) Finish(c *Conn) *Rec {
	if !d.Await(c.task, c.total) {
		c.Rec.ReadErr = "task-stuck"
	}
	return c.Rec
}

// Run = Start + Finish.
func (d *Driver) Run(label, addr string, st Stream) *Rec {
	return d.Finish(d.Start(label, addr, st))
}

// MemBudget is the heap a connection may cost the node: a small multiple of
// the bytes it actually delivered (buffers, decoded copy, response) plus a
// fixed allowance for the work an accepted request does.
const (
	MemFactor = 4
	MemSlack  = 16 << 20
)

func (r *Rec) OverBudget() (bool, string) {
	budget := MemFactor*r.Delivered + MemSlack
	if r.Alloc > budget {
		return true, fmt.Sprintf("node allocated %d MiB of Go heap while handling a connection that delivered %d bytes (budget %d x bytes + %d MiB)",
			r.Alloc>>20, r.Delivered, MemFactor, MemSlack>>20)
	}
	return false, ""
}
