package hostile

import (
	"bytes"
	"context"
	"fmt"
	"os"
	"path/filepath"
	"sort"
	"strings"
	"time"

	cproto "github.com/rqlite/rqlite/v10/cluster/proto"
	command "github.com/rqlite/rqlite/v10/command/proto"
	"verifsim/core"
	"verifsim/node"
	"verifsim/sim"
)

// Markers planted in the database: a table name and row values that appear
// nowhere else in the system.
const (
	MarkTable = "zq_secret_tbl"
	MarkRowA  = "zqSECRETrowA"
	MarkRowB  = "zqSECRETrowB"
	MarkNew   = "zqSECRETnew" // prefix of rows written by requests of the run
)

var Markers = []string{MarkTable, "zqSECRET"}

// Env is a booted cluster with a credential store, planted data and a driver.
type Env struct {
	C     *core.Ctx
	S     *sim.Sim
	D     *Driver
	Creds Creds
	N     int
	Image []byte // a valid SQLite file (the database when it held only row A)
	seq   int

	dumpKey, dumpVal map[string]string
}

// Boot starts an n-node cluster whose nodes all use creds (nil = no credential
// store) and serve HTTP, plants the marker data and prepares the load image.
func Boot(c *core.Ctx, s *sim.Sim, n int, creds Creds, knobs node.Knobs) (*Env, error) {
	e := &Env{C: c, S: s, Creds: creds, N: n}
	for i := 1; i <= n; i++ {
		nd := s.AddNode(knobs)
		nd.WithHTTP = true
		nd.QueueTimeout = 20 * time.Millisecond
		st, err := creds.Store()
		if err != nil {
			return nil, err
		}
		nd.Creds = st
	}
	if err := s.Boot(1, knobs, nil); err != nil {
		return nil, err
	}
	e.D = NewDriver(s)
	root := creds.Root()
	if n > 1 && len(creds) > 0 && root == nil {
		return nil, fmt.Errorf("multi-node cluster with credentials needs a user holding \"all\" for the joins")
	}
	for i := 2; i <= n; i++ {
		nd := s.Nodes[i]
		var err error
		if !s.Do(fmt.Sprintf("start-%d", i), 60*time.Second, func() { err = nd.Start() }) || err != nil {
			return nil, fmt.Errorf("start node %d: %v", i, err)
		}
		joined := false
		for attempt := 0; attempt < 10 && !joined; attempt++ {
			ldr := s.Leader()
			if ldr == nil {
				s.RunFor(500 * time.Millisecond)
				continue
			}
			jr := &command.JoinRequest{Id: nd.ID, Address: nd.RaftAddr, Voter: true}
			var cr *cproto.Credentials
			if root != nil {
				cr = &cproto.Credentials{Username: root.Username, Password: root.Password}
			}
			ok := s.Do(fmt.Sprintf("join-%d", i), 60*time.Second, func() {
				err = nd.Cli.Join(context.Background(), jr, ldr.RaftAddr, cr, 10*time.Second)
			})
			if ok && err == nil {
				s.RunUntil(func() bool { return nd.Store.HasLeader() }, 20*time.Second)
				joined = true
			} else {
				s.RunFor(300 * time.Millisecond)
			}
		}
		if !joined {
			return nil, fmt.Errorf("join node %d failed: %v", i, err)
		}
	}
	if !e.Exec("CREATE TABLE "+MarkTable+" (id INTEGER PRIMARY KEY, v TEXT)") ||
		!e.Exec("INSERT INTO "+MarkTable+"(v) VALUES('"+MarkRowA+"')") {
		return nil, fmt.Errorf("planting data failed")
	}
	var buf bytes.Buffer
	var err error
	ldr := s.Leader()
	if ldr == nil {
		return nil, fmt.Errorf("no leader after boot")
	}
	if !s.Do("image", 60*time.Second, func() {
		err = ldr.Store.Backup(context.Background(), &command.BackupRequest{Format: command.BackupRequest_BACKUP_REQUEST_FORMAT_BINARY}, &buf)
	}) || err != nil {
		return nil, fmt.Errorf("image backup failed: %v", err)
	}
	e.Image = buf.Bytes()
	if !e.Exec("INSERT INTO " + MarkTable + "(v) VALUES('" + MarkRowB + "')") {
		return nil, fmt.Errorf("planting data failed")
	}
	if !e.Converge() {
		return nil, fmt.Errorf("cluster did not converge after set-up")
	}
	return e, nil
}

// Exec runs one write directly on the leader's store (harness identity, no
// permission check involved).
func (e *Env) Exec(sql string) bool {
	for attempt := 0; attempt < 5; attempt++ {
		ldr := e.WaitLeader()
		if ldr == nil {
			return false
		}
		ok := false
		e.S.Do("setup-exec", 60*time.Second, func() {
			er := &command.ExecuteRequest{Request: &command.Request{Statements: []*command.Statement{{Sql: sql}}}}
			res, _, err := ldr.Store.Execute(context.Background(), er)
			ok = err == nil && len(res) == 1 && res[0].GetError() == "" && (res[0].GetE() == nil || res[0].GetE().Error == "")
		})
		if ok {
			return true
		}
		e.S.RunFor(300 * time.Millisecond)
	}
	return false
}

// Fresh returns a new marker value (deterministic sequence).
func (e *Env) Fresh() string {
	e.seq++
	return fmt.Sprintf("%s%d", MarkNew, e.seq)
}

func (e *Env) step() {
	if e.D != nil {
		e.D.Step()
	} else {
		e.S.Step()
	}
}

func (e *Env) runUntil(cond func() bool, max time.Duration) bool {
	if e.D != nil {
		return e.D.RunUntil(cond, max)
	}
	return e.S.RunUntil(cond, max)
}

// WaitLeader steps until exactly one node claims leadership (bounded).
func (e *Env) WaitLeader() *node.Node {
	e.runUntil(func() bool { return e.S.Leader() != nil }, 30*time.Second)
	return e.S.Leader()
}

// Converge steps until nothing is in flight in the replicated log: the
// leader has committed and applied everything it has appended (last log index
// = commit index = applied index), every up node has applied up to that index,
// and no client task is pending. Comparing states taken at such points
// attributes an effect to the request that caused it: an entry appended by an
// earlier (authorised, asynchronous) request can no longer land "during" the
// next request.
func (e *Env) Converge() bool {
	return e.runUntil(func() bool {
		ldr := e.S.Leader()
		if ldr == nil {
			return false
		}
		ls := ldr.Store.VerifReadState()
		if ls.LastLogIndex != ls.CommitIndex || ls.RaftAppliedIndex < ls.CommitIndex {
			return false
		}
		for _, n := range e.S.Nodes[1:] {
			if !n.Up || n == ldr {
				continue
			}
			ns := n.Store.VerifReadState()
			if ns.RaftAppliedIndex < ls.CommitIndex || ns.LastLogIndex < ls.LastLogIndex {
				return false
			}
		}
		return e.S.PendingTasks() == 0
	}, 30*time.Second)
}

// AwaitRow steps until the leader's database contains the given marker value
// (bounded): used after an authorised request whose effect is asynchronous by
// design (queued writes), so that the effect is attributed to that request.
func (e *Env) AwaitRow(marker string, max time.Duration) bool {
	return e.runUntil(func() bool {
		ldr := e.S.Leader()
		if ldr == nil {
			return false
		}
		d, err := e.dump(ldr)
		return err == nil && strings.Contains(d, marker)
	}, max)
}

// State is what "no side effects" is judged on: per node the logical dump of
// the database, the cluster configuration and the number of snapshots; plus
// who leads in which term (only compared for leadership requests).
type State struct {
	Dumps  []string
	Config []string
	Snaps  []int
	Leader string
}

func (e *Env) State() (*State, error) {
	st := &State{}
	for _, n := range e.S.Nodes[1:] {
		if !n.Up {
			st.Dumps = append(st.Dumps, "down")
			st.Config = append(st.Config, "down")
			st.Snaps = append(st.Snaps, -1)
			continue
		}
		d, err := e.dump(n)
		if err != nil {
			return nil, fmt.Errorf("dump %s: %w", n.ID, err)
		}
		st.Dumps = append(st.Dumps, d)
		srv, err := n.Store.Nodes()
		if err != nil {
			return nil, fmt.Errorf("nodes %s: %w", n.ID, err)
		}
		var parts []string
		for _, s := range srv {
			parts = append(parts, fmt.Sprintf("%s@%s/%v", s.ID, s.Addr, s.Suffrage))
		}
		sort.Strings(parts)
		st.Config = append(st.Config, strings.Join(parts, ","))
		st.Snaps = append(st.Snaps, countSnapshots(n.Dir))
	}
	if l := e.S.Leader(); l != nil {
		st.Leader = l.ID
	}
	return st, nil
}

// dump is DumpNode with a cache: the independent dump is recomputed only when
// the database file or its WAL changed on disk (size or modification time)
// since the last dump of that node. The key is never logged.
func (e *Env) dump(n *node.Node) (string, error) {
	key := ""
	for _, f := range []string{"db.sqlite", "db.sqlite-wal"} {
		if fi, err := os.Stat(filepath.Join(n.Dir, f)); err == nil {
			key += fmt.Sprintf("%s:%d:%d;", f, fi.Size(), fi.ModTime().UnixNano())
		} else {
			key += f + ":absent;"
		}
	}
	if e.dumpKey == nil {
		e.dumpKey, e.dumpVal = map[string]string{}, map[string]string{}
	}
	if e.dumpKey[n.ID] == key {
		return e.dumpVal[n.ID], nil
	}
	d, err := e.S.DumpNode(n)
	if err != nil {
		return "", err
	}
	e.dumpKey[n.ID], e.dumpVal[n.ID] = key, d
	return d, nil
}

func countSnapshots(dir string) int {
	ents, err := os.ReadDir(filepath.Join(dir, "wsnapshots"))
	if err != nil {
		return 0
	}
	k := 0
	for _, en := range ents {
		if en.IsDir() && !strings.HasSuffix(en.Name(), ".tmp") {
			k++
		}
	}
	return k
}

// Diff describes the first difference between two states ("" = equal).
// Leadership and the number of snapshots are only compared when asked for
// (an authorised backup may snapshot; an election may happen for reasons
// unrelated to the request under test).
func (a *State) Diff(b *State, withLeader, withSnaps bool) string {
	for i := range a.Dumps {
		if i >= len(b.Dumps) {
			break
		}
		if a.Dumps[i] != b.Dumps[i] {
			return fmt.Sprintf("database of node %d changed: %s", i+1, sim.FirstDiff(a.Dumps[i], b.Dumps[i]))
		}
		if a.Config[i] != b.Config[i] {
			return fmt.Sprintf("cluster configuration seen by node %d changed: %q -> %q", i+1, a.Config[i], b.Config[i])
		}
		if withSnaps && a.Snaps[i] != b.Snaps[i] {
			return fmt.Sprintf("number of snapshots of node %d changed: %d -> %d", i+1, a.Snaps[i], b.Snaps[i])
		}
	}
	if withLeader && a.Leader != b.Leader {
		return fmt.Sprintf("leader changed: %q -> %q", a.Leader, b.Leader)
	}
	return ""
}

// Digest is a short deterministic summary for the event log.
func (s *State) Digest() string {
	rows := 0
	if len(s.Dumps) > 0 {
		rows = strings.Count(s.Dumps[0], "\nR|")
	}
	cfg := ""
	if len(s.Config) > 0 {
		cfg = s.Config[0]
	}
	return fmt.Sprintf("rows=%d cfg=%s snaps=%v leader=%s", rows, cfg, s.Snaps, s.Leader)
}

// Settle lets asynchronous consequences of a request land: a short stretch of
// simulated time, then convergence.
func (e *Env) Settle() {
	if e.D != nil {
		e.D.RunFor(150 * time.Millisecond)
	} else {
		e.S.RunFor(150 * time.Millisecond)
	}
	e.WaitLeader()
	e.Converge()
}

// HasGhosts reports whether the leader's configuration lists a server that is
// not one of the simulated nodes.
func (e *Env) HasGhosts() bool {
	ldr := e.S.Leader()
	if ldr == nil {
		return false
	}
	srv, err := ldr.Store.Nodes()
	if err != nil {
		return false
	}
	real := map[string]bool{}
	for _, n := range e.S.Nodes[1:] {
		real[n.ID] = true
	}
	for _, sv := range srv {
		if !real[sv.ID] {
			return true
		}
	}
	return false
}

// RemoveGhosts removes configuration entries that are not real nodes (left by
// authorised join requests of the run) directly on the leader.
func (e *Env) RemoveGhosts() {
	ldr := e.WaitLeader()
	if ldr == nil {
		return
	}
	srv, err := ldr.Store.Nodes()
	if err != nil {
		return
	}
	real := map[string]bool{}
	for _, n := range e.S.Nodes[1:] {
		real[n.ID] = true
	}
	for _, sv := range srv {
		if real[sv.ID] {
			continue
		}
		id := sv.ID
		e.S.Do("remove-ghost "+id, 30*time.Second, func() {
			ldr.Store.Remove(context.Background(), &command.RemoveNodeRequest{Id: id})
		})
	}
}

// FollowUp sends a well-formed node-meta request and a well-formed query (with
// the harness's own credentials) on a fresh connection and reports whether the
// node answered both correctly.
func (e *Env) FollowUp(label string, n *node.Node) (bool, string) {
	user, pass, present := "", "", false
	if r := e.Creds.Root(); r != nil {
		user, pass, present = r.Username, r.Password, true
	}
	meta := Build("meta", "nil", "", nil, user, pass, present, Params{})
	q := Build("query", "ok", "", nil, user, pass, present, Params{Query: "SELECT v FROM " + MarkTable, Level: command.ConsistencyLevel_NONE})
	payload := append([]byte{HdrCluster}, Frame(meta)...)
	payload = append(payload, Frame(q)...)
	rec := e.D.Run(label, n.RaftAddr, Stream{Chunks: [][]byte{payload}, End: "fin"})
	if rec.DialErr != "" {
		return false, "dial: " + rec.DialErr
	}
	frames, rest := SplitFrames(rec.Resp)
	if len(frames) != 2 || len(rest) != 0 {
		return false, fmt.Sprintf("expected 2 response frames, got %d (+%d stray bytes), eof=%v err=%q", len(frames), len(rest), rec.EOF, rec.ReadErr)
	}
	if !NodeMetaOK(frames[0]) {
		return false, "node-meta answer malformed"
	}
	if ok, why := QueryRespContains(frames[1], MarkRowA); !ok {
		return false, "query answer: " + why
	}
	if !rec.EOF {
		return false, "connection not closed after FIN: " + rec.ReadErr
	}
	return true, ""
}
