package hostile

import (
	"bytes"
	"compress/gzip"
	"encoding/binary"
	"fmt"
	"io"

	cproto "github.com/rqlite/rqlite/v10/cluster/proto"
	command "github.com/rqlite/rqlite/v10/command/proto"
	"google.golang.org/protobuf/encoding/protowire"
	pb "google.golang.org/protobuf/proto"
)

// Mux header bytes (cluster.MuxRaftHeader / cluster.MuxClusterHeader).
const (
	HdrRaft    = 1
	HdrCluster = 2
)

var kindType = map[string]cproto.Command_Type{
	"meta": cproto.Command_COMMAND_TYPE_GET_NODE_META, "execute": cproto.Command_COMMAND_TYPE_EXECUTE,
	"query": cproto.Command_COMMAND_TYPE_QUERY, "request": cproto.Command_COMMAND_TYPE_REQUEST,
	"backup": cproto.Command_COMMAND_TYPE_BACKUP, "backup_stream": cproto.Command_COMMAND_TYPE_BACKUP_STREAM,
	"load": cproto.Command_COMMAND_TYPE_LOAD, "load_chunk": cproto.Command_COMMAND_TYPE_LOAD_CHUNK,
	"remove": cproto.Command_COMMAND_TYPE_REMOVE_NODE, "notify": cproto.Command_COMMAND_TYPE_NOTIFY,
	"join": cproto.Command_COMMAND_TYPE_JOIN, "stepdown": cproto.Command_COMMAND_TYPE_STEPDOWN,
	"hwm": cproto.Command_COMMAND_TYPE_HIGHWATER_MARK_UPDATE,
}

// Params are the run-time arguments of a well-formed command.
type Params struct {
	SQL       string // execute / request write statement
	Query     string // query / request read statement
	Level     command.ConsistencyLevel
	Image     []byte // load
	ID, Addr  string // join / notify / remove / stepdown target
	Voter     bool
	BackupFmt command.BackupRequest_Format
	Compress  bool
}

func stmts(sql ...string) []*command.Statement {
	var out []*command.Statement
	for _, s := range sql {
		if s != "" {
			out = append(out, &command.Statement{Sql: s})
		}
	}
	return out
}

// setRequest fills the oneof for kind. variant "ok" = complete request,
// "empty" = the request message is present but empty (inner Request nil).
func setRequest(c *cproto.Command, kind, variant string, p Params) {
	empty := variant == "empty"
	switch kind {
	case "execute":
		r := &command.ExecuteRequest{}
		if !empty {
			r.Request = &command.Request{Statements: stmts(p.SQL)}
		}
		c.Request = &cproto.Command_ExecuteRequest{ExecuteRequest: r}
	case "query":
		r := &command.QueryRequest{}
		if !empty {
			r.Request = &command.Request{Statements: stmts(p.Query)}
			r.Level = p.Level
		}
		c.Request = &cproto.Command_QueryRequest{QueryRequest: r}
	case "request":
		r := &command.ExecuteQueryRequest{}
		if !empty {
			r.Request = &command.Request{Statements: stmts(p.Query, p.SQL)}
			r.Level = p.Level
		}
		c.Request = &cproto.Command_ExecuteQueryRequest{ExecuteQueryRequest: r}
	case "backup", "backup_stream":
		r := &command.BackupRequest{}
		if !empty {
			r.Format = p.BackupFmt
			if r.Format == command.BackupRequest_BACKUP_REQUEST_FORMAT_NONE {
				r.Format = command.BackupRequest_BACKUP_REQUEST_FORMAT_BINARY
			}
			r.Compress = p.Compress
		}
		c.Request = &cproto.Command_BackupRequest{BackupRequest: r}
	case "load":
		r := &command.LoadRequest{}
		if !empty {
			r.Data = p.Image
		}
		c.Request = &cproto.Command_LoadRequest{LoadRequest: r}
	case "load_chunk":
		r := &command.LoadChunkRequest{}
		if !empty {
			r.StreamId = "s1"
			r.Data = p.Image
			r.IsLast = true
		}
		c.Request = &cproto.Command_LoadChunkRequest{LoadChunkRequest: r}
	case "remove":
		r := &command.RemoveNodeRequest{}
		if !empty {
			r.Id = p.ID
		}
		c.Request = &cproto.Command_RemoveNodeRequest{RemoveNodeRequest: r}
	case "notify":
		r := &command.NotifyRequest{}
		if !empty {
			r.Id, r.Address = p.ID, p.Addr
		}
		c.Request = &cproto.Command_NotifyRequest{NotifyRequest: r}
	case "join":
		r := &command.JoinRequest{}
		if !empty {
			r.Id, r.Address, r.Voter = p.ID, p.Addr, p.Voter
		}
		c.Request = &cproto.Command_JoinRequest{JoinRequest: r}
	case "stepdown":
		r := &command.StepdownRequest{}
		if !empty {
			r.Id = p.ID
		}
		c.Request = &cproto.Command_StepdownRequest{StepdownRequest: r}
	case "hwm":
		r := &cproto.HighwaterMarkUpdateRequest{}
		if !empty {
			r.NodeId, r.HighwaterMark = "ghost", 1
		}
		c.Request = &cproto.Command_HighwaterMarkUpdateRequest{HighwaterMarkUpdateRequest: r}
	}
}

// Build makes the protobuf bytes of one command.
//
//	variant ok        complete request of the right kind
//	        nil       command type set, no request payload at all
//	        empty     request payload present but empty (inner Request nil)
//	        mismatch  request payload of kind2 under the type of kind
//
// typ, when non-nil, overrides the command type number (unknown types).
func Build(kind, variant, kind2 string, typ *int32, user, pass string, present bool, p Params) []byte {
	c := &cproto.Command{Type: kindType[kind]}
	if typ != nil {
		c.Type = cproto.Command_Type(*typ)
	}
	switch variant {
	case "nil":
	case "mismatch":
		setRequest(c, kind2, "ok", p)
	default:
		setRequest(c, kind, variant, p)
	}
	if present {
		c.Credentials = &cproto.Credentials{Username: user, Password: pass}
	}
	b, err := pb.Marshal(c)
	if err != nil {
		panic(err)
	}
	return b
}

// Frame prefixes payload with the 8-byte little-endian length the cluster
// protocol uses.
func Frame(payload []byte) []byte {
	return FrameLen(uint64(len(payload)), payload)
}

func FrameLen(declared uint64, payload []byte) []byte {
	b := make([]byte, 8, 8+len(payload))
	binary.LittleEndian.PutUint64(b, declared)
	return append(b, payload...)
}

// SplitFrames cuts a response byte stream into length-prefixed frames. rest is
// whatever follows the last complete frame.
func SplitFrames(b []byte) (frames [][]byte, rest []byte) {
	for len(b) >= 8 {
		sz := binary.LittleEndian.Uint64(b)
		if sz > uint64(len(b)-8) {
			break
		}
		frames = append(frames, b[8:8+sz])
		b = b[8+sz:]
	}
	return frames, b
}

// RespInfo inspects one response frame of the cluster protocol without relying
// on the response type: in every Command*Response message field 1 is the error
// string and every other field carries results.
type RespInfo struct {
	Parsed  bool
	Error   string
	Payload int // bytes carried in fields other than the error
}

func Inspect(kind string, frame []byte) RespInfo {
	if kind == "backup" {
		// the non-streaming backup response is gzip-compressed as a whole
		if z, err := gunzipAll(frame); err == nil {
			frame = z
		}
	}
	var ri RespInfo
	b := frame
	for len(b) > 0 {
		num, typ, n := protowire.ConsumeTag(b)
		if n < 0 {
			return ri
		}
		b = b[n:]
		m := protowire.ConsumeFieldValue(num, typ, b)
		if m < 0 {
			return ri
		}
		if num == 1 && typ == protowire.BytesType {
			v, _ := protowire.ConsumeBytes(b)
			ri.Error = string(v)
		} else {
			ri.Payload += m
		}
		b = b[m:]
	}
	ri.Parsed = true
	return ri
}

func gunzipAll(b []byte) ([]byte, error) {
	zr, err := gzip.NewReader(bytes.NewReader(b))
	if err != nil {
		return nil, err
	}
	return io.ReadAll(zr)
}

// gunzipPrefix decompresses as much as possible of a gzip stream starting at b.
func gunzipPrefix(b []byte) []byte {
	zr, err := gzip.NewReader(bytes.NewReader(b))
	if err != nil {
		return nil
	}
	out, _ := io.ReadAll(io.LimitReader(zr, 64<<20))
	return out
}

var sqliteMagic = []byte("SQLite format 3\x00")

// Leak looks for database content in bytes an unauthorised party received:
// the marker strings planted in the database, or an SQLite file header,
// either in the clear or inside a gzip stream starting anywhere in b.
func Leak(b []byte, markers []string) string {
	scan := func(x []byte, where string) string {
		for _, m := range markers {
			if m != "" && bytes.Contains(x, []byte(m)) {
				return fmt.Sprintf("marker %q %s", m, where)
			}
		}
		if bytes.Contains(x, sqliteMagic) {
			return "SQLite file header " + where
		}
		return ""
	}
	if s := scan(b, "in the clear"); s != "" {
		return s
	}
	for i := 0; i+3 <= len(b); i++ {
		if b[i] == 0x1f && b[i+1] == 0x8b && b[i+2] == 0x08 {
			if z := gunzipPrefix(b[i:]); len(z) > 0 {
				if s := scan(z, fmt.Sprintf("inside a gzip stream at offset %d (%d bytes decompressed)", i, len(z))); s != "" {
					return s
				}
			}
		}
	}
	return ""
}

// NodeMetaOK reports whether frame is a well-formed NodeMeta answer.
func NodeMetaOK(frame []byte) bool {
	m := &cproto.NodeMeta{}
	return pb.Unmarshal(frame, m) == nil && m.Url != ""
}

// QueryRespContains reports whether frame is an error-free query response
// whose rows contain the given text value.
func QueryRespContains(frame []byte, want string) (bool, string) {
	m := &cproto.CommandQueryResponse{}
	if err := pb.Unmarshal(frame, m); err != nil {
		return false, "unparsable: " + err.Error()
	}
	if m.Error != "" {
		return false, "error: " + m.Error
	}
	for _, r := range m.Rows {
		if r.Error != "" {
			return false, "row error: " + r.Error
		}
		for _, v := range r.Values {
			for _, p := range v.Parameters {
				if p.GetS() == want {
					return true, ""
				}
			}
		}
	}
	return false, "value not found"
}

// Decoded is one command of a byte stream, read the way the protocol defines.
type Decoded struct {
	Kind       string // "" = a type number no command kind is defined for
	HasRequest bool   // the request message that kind expects is present
	Voter      bool
	User, Pass string
	Authorized bool // the credentials carried are authorised for what the command requires
	Mutating   bool // a complete, authorised command whose purpose is to change database or configuration
}

var mutatingKinds = map[string]bool{"execute": true, "request": true, "load": true, "join": true, "remove": true}

// DecodeStream reads the bytes a peer sends after the cluster mux header byte
// exactly as the protocol defines them - 8-byte little-endian length, that
// many bytes of protobuf Command, repeat - whatever generator produced them,
// and judges every complete command against the credential model. It stops
// where a node has to stop: at an incomplete frame or at bytes that are not a
// Command. This is what decides whether a stream is entitled to change state:
// a mutated or random stream that happens to be a complete command carrying
// credentials authorised for that command is a legitimate request.
func DecodeStream(afterHeader []byte, creds Creds) []Decoded {
	var out []Decoded
	b := afterHeader
	for len(b) >= 8 {
		sz := binary.LittleEndian.Uint64(b)
		if sz > uint64(len(b)-8) {
			break
		}
		c := &cproto.Command{}
		if err := pb.Unmarshal(b[8:8+sz], c); err != nil {
			break // the node closes the connection here
		}
		b = b[8+sz:]
		d := Decoded{User: c.GetCredentials().GetUsername(), Pass: c.GetCredentials().GetPassword()}
		for k, t := range kindType {
			if t == c.Type {
				d.Kind = k
			}
		}
		switch d.Kind {
		case "meta":
			d.HasRequest = true
		case "execute":
			d.HasRequest = c.GetExecuteRequest() != nil
		case "query":
			d.HasRequest = c.GetQueryRequest() != nil
		case "request":
			d.HasRequest = c.GetExecuteQueryRequest() != nil
		case "backup", "backup_stream":
			d.HasRequest = c.GetBackupRequest() != nil
		case "load":
			d.HasRequest = c.GetLoadRequest() != nil
		case "load_chunk":
			d.HasRequest = c.GetLoadChunkRequest() != nil
		case "remove":
			d.HasRequest = c.GetRemoveNodeRequest() != nil
		case "notify":
			d.HasRequest = c.GetNotifyRequest() != nil
		case "join":
			d.HasRequest = c.GetJoinRequest() != nil
			d.Voter = c.GetJoinRequest().GetVoter()
		case "stepdown":
			d.HasRequest = c.GetStepdownRequest() != nil
		case "hwm":
			d.HasRequest = c.GetHighwaterMarkUpdateRequest() != nil
		}
		if d.Kind != "" {
			d.Authorized = creds.Authorized(d.User, d.Pass, PeerNeed(d.Kind, d.Voter))
		}
		d.Mutating = d.HasRequest && d.Authorized && mutatingKinds[d.Kind]
		out = append(out, d)
	}
	return out
}
